"""Forward symbolic execution of Python function ASTs with state merging, producing
verification conditions against sidecar contracts (DESIGN §2.5)."""
import ast
import z3
from .kinds import *
from .values import *
from . import strings, mathlib
from .extract import number_loops, mangle

POISON = object()


class Obligation:
    def __init__(self, name, hyps, pc, claim, kind, line=None, carry=True):
        self.name, self.hyps, self.pc, self.claim, self.kind, self.line, self.carry = \
            name, hyps, pc, claim, kind, line, carry
        self.inputs = []


class State:
    def __init__(self, vars=None, heap=None, pc=TRUE, undef=None):
        self.vars = vars if vars is not None else {}
        self.heap = heap if heap is not None else {}
        self.pc = pc
        self.undef = set(undef) if undef else set()   # names bound on some merged paths only

    def copy(self, pc=None):
        return State(dict(self.vars), dict(self.heap), self.pc if pc is None else pc, self.undef)


class Outcomes:
    def __init__(self, normal=None, brk=None, cont=None, ret=None):
        self.normal, self.brk, self.cont, self.ret = normal, brk, cont, ret


def merge(a, b, sel=None):
    """Merge two states with disjoint path conditions; `sel` selects a (defaults to a.pc)."""
    if a is None:
        return b
    if b is None:
        return a
    if z3.is_false(a.pc):
        return b
    if z3.is_false(b.pc):
        return a
    c = a.pc if sel is None else sel
    out = State({}, {}, or_(a.pc, b.pc), a.undef | b.undef)
    for k in set(a.vars) | set(b.vars):
        va, vb = a.vars.get(k, POISON), b.vars.get(k, POISON)
        if (k in a.vars) != (k in b.vars) and not k.startswith("$"):
            # bound on one side only: readable by contract clauses (arbitrary on the other side),
            # not by code (UnboundLocalError risk)
            out.vars[k] = va if k in a.vars else vb
            out.undef.add(k)
        elif va is POISON or vb is POISON:
            out.vars[k] = POISON
        elif va is vb:
            out.vars[k] = va
        else:
            try:
                out.vars[k] = ite(c, va, vb)
            except OutOfSubset:
                out.vars[k] = POISON
    for k in set(a.heap) | set(b.heap):
        ha, hb = a.heap.get(k), b.heap.get(k)
        if ha is None or hb is None:
            # a field not touched yet on one side still has its initial (lazily named) arrays there
            present = ha or hb
            init = [z3.Const("H0_%s_%s_%d" % (k[0], k[1], i), x.sort()) for i, x in enumerate(present)]
            ha, hb = (ha or init), (hb or init)
            out.heap[k] = [if_(c, x, y) for x, y in zip(ha, hb)]
        elif ha is hb:
            out.heap[k] = ha
        else:
            out.heap[k] = [if_(c, x, y) for x, y in zip(ha, hb)]
    return out


class LoopSpec:
    def __init__(self, inv=(), decreases=None, index=None, unroll=None, aux=(), hints=(), modifies=None):
        self.inv, self.decreases, self.index, self.unroll, self.aux, self.hints = \
            list(inv), decreases, index, unroll, list(aux), list(hints)
        self.modifies = modifies


class Spec:
    def __init__(self, qual, params, returns="none", requires=(), ensures=(), aux=(), raises=None,
                 modifies=(), loops=None, inline=False, locals=None, pure=False, hints=(),
                 trusted=False, fresh=(), cases=None, at=None, ghost=None, ghost_calls=None, reveal=(), bind=None, decreases=None,
                 region=None, let=None, abstract=None, negative_indices=False,
                 frame_axiom=False, ensures_local=(), denotes=None, assume_stmt=None):
        self.qual = qual
        # statements NOT executed symbolically but replaced by an ASSUMED effect on one variable (float library arithmetic
        # outside the encoding): {first source line: (variable, kind, clause over the state after it)}.  Each one is an
        # unchecked assumption, listed in the evidence; the bounded check is expected to test it.
        self.assume_stmt = assume_stmt or {}
        self.denotes = denotes          # name of the mathematical function this PURE float function computes (see Registry.add)
        self.params = params            # ordered dict name -> kind text
        self.returns = returns
        self.requires, self.ensures, self.aux = list(requires), list(ensures), list(aux)
        self.raises = raises or {}
        self.modifies = list(modifies)  # ["Cls.field", ...]
        self.loops = loops or {}
        self.inline = inline
        self.locals = locals or {}      # kinds of locals that cannot be inferred (empty lists)
        self.pure = pure
        self.hints = list(hints)        # ghost `have` steps before the ensures (each proved then assumed)
        self.trusted = trusted          # contract assumed, body not verified (library / out of subset)
        self.fresh = list(fresh)        # classes of which only objects allocated by the call are written
        self.reveal = set(reveal)       # opaque spec functions whose definition this proof needs
        self.at = at or {}              # ghost `have` steps after the statement whose first source line is the key
        self.ghost = ghost or {}        # ghost parameters (name -> kind text)
        self.ghost_calls = ghost_calls or {}   # callee short name -> {ghost param -> expression in the caller}
        self.cases = cases
        self.ensures_local = list(ensures_local)   # postconditions over the function's own locals: proved, not exported to callers
        self.negative_indices = negative_indices
        self.frame_axiom = frame_axiom  # encode `fresh` classes by a quantified frame axiom instead of a lambda term
        self.region = region            # (first statement text, statement text to stop before | None): verify this slice
        self.let = let or {}            # region inputs defined by an expression over the other inputs
        self.abstract = abstract or {}  # function-valued input -> name of an uninterpreted function (its axioms via reg.axioms)
        self.decreases = decreases      # variant expression over the parameters (recursive functions)
        self.bind = bind or {}          # function-valued parameter -> qualified name of the function it is fixed to


class Registry:
    """Everything the executor needs to know beyond the function AST."""

    def __init__(self, index):
        self.index = index
        self.specs = {}          # qual -> Spec
        self.fields = {}         # (cls, field) -> Kind
        self.specfuncs = {}      # name -> python callable(ctx, *Val) -> Val
        self.axioms = []         # callables () -> [z3 Bool]
        self.builtins = {}       # dotted name -> handler(ex, st, args, node) -> Val
        self.aliases = {}        # bare name -> qual (import resolution overrides)
        self.subclasses = dict(index.bases)     # class -> base class (from the source; contracts may add)
        self.auto_inline = {"tracklib.core.utils:isnan"}   # contract-less functions that may be inlined
        self.ghost_ok = set()
        self.variants = {}       # qual -> [Spec] (alternative contracts by argument kind)
        self.trace_calls = set() # method names whose calls only print (dropped by the extraction)
        self.trace_vars = set()  # local names that only hold trace text (assignments dropped)
        self.abstract_fields = {}  # "Cls.field" -> name of the uninterpreted function a function-valued field denotes

    def add(self, spec, variant=None):
        """`variant`: a second contract of the same function for arguments of other kinds (a list where the
        first contract takes a float, ...).  Stored under 'qual@variant'; a call site uses the first contract
        whose parameter kinds accept the actual arguments."""
        key = spec.qual if variant is None else "%s@%s" % (spec.qual, variant)
        spec.key = key
        self.specs[key] = spec
        if variant is not None:
            self.variants.setdefault(spec.qual, []).append(spec)
        if spec.denotes:
            self._add_denotation(spec)
        return spec

    def _add_denotation(self, spec):
        """`denotes=NAME`: the function is a pure function of float arguments (checked syntactically when its own
        contract is verified: obligation `pure-function`), so it computes a mathematical function NAME of its
        arguments.  Call sites learn `result == NAME(args)`; specifications may mention NAME(...); and every exported
        postcondition, proved for all arguments satisfying the preconditions, becomes an axiom of NAME."""
        names = list(spec.params)
        den = z3.Function(spec.denotes, *([z3.RealSort()] * (len(names) + 1)))
        spec.den_fn = den
        reg = self

        def sf(ex, st, *args):
            return vfloat(den(*[to_float(a)[1] for a in args]))

        def provider():
            fi = reg.index.funcs[spec.qual]
            ctx = Ctx(reg, "axiom:" + spec.denotes)
            sub = Executor(ctx, fi, spec)
            sub.spec_mode = True
            xs = [z3.Real("%s!d" % n) for n in names]
            st = State({n: vfloat(x) for n, x in zip(names, xs)}, {}, TRUE)
            sub.old_state = st
            sub.result = vfloat(den(*xs))
            req = and_(*[sub.eval_spec(r[1] if isinstance(r, tuple) else r, st) for r in spec.requires])
            ens = and_(*[sub.eval_spec(e[1] if isinstance(e, tuple) else e, st) for e in spec.ensures])
            return [z3.ForAll(xs, implies(req, ens), patterns=[den(*xs)])]

        self.specfuncs[spec.denotes] = sf
        self.axioms.append((spec.denotes, provider))

    def add_harness(self, name, source):
        """A proof harness: a few lines of Python (in the spec file) that only SEQUENCE calls of real repository
        functions (convert there, convert back); it is parsed and executed symbolically like a repository function,
        its callees being the real code (inlined) or their contracts.  Qualified name 'harness:<name>'."""
        import ast as _ast
        from .extract import FuncInfo
        node = _ast.parse(source).body[0]
        fi = FuncInfo("harness", None, name, node, "specs (proof harness)")
        fi.qual = "harness:" + name
        self.index.funcs[fi.qual] = fi
        return fi

    def add_stub(self, cls, name, params):
        """A method the class inherits from a built-in type (dict.__len__ of priority_dict): a body-less FuncInfo so
        that a TRUSTED contract can be attached to it."""
        import ast as _ast
        from .extract import FuncInfo
        node = _ast.parse("def %s(%s):\n    pass\n" % (name, ", ".join(params))).body[0]
        fi = FuncInfo(self.index.classes.get(cls, "builtins"), cls, name, node, "(inherited built-in method)")
        self.index.funcs[fi.qual] = fi
        self.index.by_short.setdefault(fi.short, []).append(fi)
        return fi

    def field(self, cls, name, kind):
        self.fields[(cls, name)] = parse_kind(kind) if isinstance(kind, str) else kind

    def spec_for(self, fi):
        return self.specs.get(fi.qual)


class Ctx:
    def __init__(self, registry, prefix):
        self.reg = registry
        self.prefix = prefix
        self.hyps = []
        self.hyp_pc = {}        # index in hyps -> path condition guarding the hypothesis (pruning, verify.package)
        self.hyp_defs = {}      # index in hyps -> set of symbol names the hypothesis *defines* (relevance filter)
        self.obls = []
        self.dropped = []
        self.inlined = set()
        self.called = set()
        self.trusted_used = set()
        self.math_used = set()
        self.old = None
        self.top_spec = None
        self.depth = 0

    def assume(self, st, fact, defines=None):
        if z3.is_true(fact):
            return
        if not z3.is_true(st.pc):
            self.hyp_pc[len(self.hyps)] = st.pc
        self.add_hyp(implies(st.pc, fact), defines)

    def add_hyp(self, fact, defines=None):
        """`defines`: names of fresh symbols this hypothesis only serves to define (a named quotient, a floor,
        the result of a contracted call).  Such a hypothesis is relevant to an obligation only if one of those
        symbols is; see verify.package()."""
        if defines:
            self.hyp_defs[len(self.hyps)] = set(defines)
        self.hyps.append(fact)

    def oblige(self, st, name, claim, kind, line=None, carry=True):
        if z3.is_true(claim):
            return
        if kind in ("safety", "call-pre") and z3.is_true(z3.simplify(claim)):
            return
        if z3.is_false(st.pc):
            return
        cases = getattr(self, "case_conds", None)
        if cases and kind in ("safety", "call-pre", "raise", "loop-init", "loop-preserve", "hint", "loop-variant", "variant", "frame"):
            for cn, cc in cases:
                self.obls.append(Obligation("%s/%s[%s]" % (self.prefix, name, cn), len(self.hyps), st.pc,
                                            implies(cc, claim), kind, line, carry))
            return
        o = Obligation("%s/%s" % (self.prefix, name), len(self.hyps), st.pc, claim, kind, line, carry)
        self.obls.append(o)


class Executor:
    def __init__(self, ctx, fi, spec):
        self.ctx, self.fi, self.spec = ctx, fi, spec
        self.loop_ids = number_loops(fi.node)
        self.bound = {}      # quantifier-bound names -> Val
        self.spec_mode = False
        self.old_state = None
        self.result = None
        self.tag = ""        # obligation-name prefix for inlined code

    # ------------------------------------------------------------------ helpers
    def check(self, st, what, cond, node=None, kind="safety"):
        if self.spec_mode:
            return
        line = getattr(node, "lineno", None)
        n = self._n = getattr(self, "_n", 0) + 1
        if kind == "safety" and what.startswith("IndexError") and self.catch(st, "IndexError", not_(cond)):
            return
        top = self.ctx.top_spec
        if kind == "safety" and what.startswith("IndexError") and top is not None and "IndexError" in top.raises \
                and not self.ctx.__dict__.get("try_stack"):
            # the top-level contract allows IndexError: the subscript may fail exactly on paths where the stated
            # condition holds; execution continues on the others
            topex = self.ctx.top_exec
            allowed = topex.eval_spec(top.raises["IndexError"], topex.old_state)
            self.ctx.oblige(st, "%sraise:IndexError@%s" % (self.tag, self._site(node)), or_(cond, allowed), "raise", line)
            st.pc = and_(st.pc, cond)
            return
        self.ctx.oblige(st, "%s%s:%s@%s" % (self.tag, kind, what, self._site(node)), cond, kind, line)

    def catch(self, st, exc, cond):
        """Inside `try: ... except <exc>:` of THIS function (not of an inlining caller): the paths on which `cond`
        holds leave the try body for the handler with the current state; `st` continues with the others."""
        stack = self.ctx.__dict__.setdefault("try_stack", [])
        if not stack or stack[-1]["ex"] is not self or exc not in stack[-1]["excs"]:
            return False
        c = z3.simplify(cond)
        if not z3.is_false(c):
            stack[-1]["states"].append(st.copy(and_(st.pc, cond)))
        st.pc = and_(st.pc, not_(cond))
        return True

    def _site(self, node):
        # position independent of absolute line numbers: offset from the function's first line
        if node is None or not hasattr(node, "lineno"):
            return "?"
        return "+%d.%d" % (node.lineno - self.fi.node.lineno, getattr(node, "col_offset", 0))

    def unsupported(self, node, why=""):
        raise OutOfSubset("%s: %s at line %s %s" % (self.fi.qual, type(node).__name__, getattr(node, "lineno", "?"), why))

    def kind_of(self, text):
        return parse_kind(text) if isinstance(text, str) else text

    # ------------------------------------------------------------------ heap
    def heap_arrays(self, st, cls, field):
        key = (cls, field)
        if key not in st.heap:
            k = self.ctx.reg.fields.get(key)
            if k is None:
                raise OutOfSubset("field %s.%s not declared in the class model" % key)
            st.heap[key] = [z3.Const("H0_%s_%s_%d" % (cls, field, i), z3.ArraySort(z3.IntSort(), s))
                            for i, s in enumerate(flat(k))]
            self.assume_closed_heap(key, k, st.heap[key])
            self.assume_list_lengths(k, st.heap[key])
        return st.heap[key]

    def assume_list_lengths(self, k, arrs):
        """lengths of lists stored in a field are non-negative (holds of every list; stated for havoced heaps too)"""
        depth, kk = 0, k
        while isinstance(kk, KList):
            # level `depth` lengths: arrs[depth] indexed by the object and `depth` list positions
            vs = [z3.Int(uid("llr")) for _ in range(depth + 1)]
            t = arrs[depth]
            for v in vs:
                t = z3.Select(t, v)
            self.ctx.hyps.append(z3.ForAll(vs, t >= 0))
            depth += 1
            kk = kk.elem

    def assume_closed_heap(self, key, k, arrs):
        """A-ALLOC for the initial heap: every reference stored in a field at entry denotes an object allocated
        before the call (0 <= ref < alloc0)."""
        ctx = self.ctx
        done = ctx.__dict__.setdefault("closed_heap", {})
        ent = done.get(key)
        if ent is not None and ent[0] < len(ctx.hyps) and ctx.hyps[ent[0]] is ent[1]:
            return
        a0 = z3.Int("alloc0")
        r, i = z3.Int(uid("chr")), z3.Int(uid("chi"))
        fact = None
        if isinstance(k, KRef):
            fact = z3.ForAll([r], and_(z3.Select(arrs[0], r) >= 0, z3.Select(arrs[0], r) < a0))
        elif isinstance(k, KList) and isinstance(k.elem, KRef):
            e = z3.Select(z3.Select(arrs[1], r), i)
            fact = z3.ForAll([r, i], and_(e >= 0, e < a0))
        elif isinstance(k, KOpt) and isinstance(k.elem, KRef):
            fact = z3.ForAll([r], and_(z3.Select(arrs[1], r) >= 0, z3.Select(arrs[1], r) < a0))
        if fact is not None:
            done[key] = (len(ctx.hyps), fact)
            ctx.hyps.append(fact)

    def owner_class(self, cls, field):
        """Find the class (cls or a declared base) that declares `field`."""
        c = cls
        while c is not None:
            if (c, field) in self.ctx.reg.fields:
                return c
            c = self.ctx.reg.subclasses.get(c)
        return None

    def read_field(self, st, obj, field):
        cls = self.owner_class(obj.kind.cls, field)
        if cls is None:
            raise OutOfSubset("field %s.%s not declared in the class model" % (obj.kind.cls, field))
        k = self.ctx.reg.fields[(cls, field)]
        arrs = self.heap_arrays(st, cls, field)
        v = Val(k, [z3.Select(a, obj.terms[0]) for a in arrs])
        if isinstance(k, KDict):
            self.assume_dict_wf(v)
        return v

    def assume_dict_wf(self, v):
        """Every dict value satisfies dicts.wf by construction of the dict operations (encoding invariant)."""
        from . import dicts
        ctx = self.ctx
        cache = ctx.__dict__.setdefault("dictwf_cache", {})
        key = tuple(t.get_id() for t in v.terms)
        ent = cache.get(key)
        if ent is not None and ent[0] < len(ctx.hyps) and ctx.hyps[ent[0]] is ent[1]:
            return
        fact = dicts.wf(v)
        cache[key] = (len(ctx.hyps), fact, v)
        ctx.hyps.append(fact)

    def write_field(self, st, obj, field, val, node=None):
        cls = self.owner_class(obj.kind.cls, field)
        if cls is None:
            raise OutOfSubset("field %s.%s not declared in the class model" % (obj.kind.cls, field))
        k = self.ctx.reg.fields[(cls, field)]
        val, sc = coerce(val, k)
        self.check(st, "store-kind", sc, node)
        arrs = self.heap_arrays(st, cls, field)
        st.heap[(cls, field)] = [z3.Store(a, obj.terms[0], t) for a, t in zip(arrs, val.terms)]

    def new_object(self, st, cls):
        """A-ALLOC: allocation returns a reference distinct from every earlier one."""
        alloc = st.vars.get("$alloc")
        if alloc is None:
            alloc = vint(z3.Int("alloc0"))
        r = alloc.terms[0]
        st.vars["$alloc"] = vint(r + 1)
        return vref(r, cls)

    # ------------------------------------------------------------------ expressions
    POLAR_CALLS = ("implies", "old", "all", "any")

    def eval(self, node, st):
        m = getattr(self, "e_" + type(node).__name__, None)
        if m is None:
            self.unsupported(node)
        # polarity of the position being evaluated inside a contract clause (+1 positive, -1 negative, 0 unknown): only
        # the Boolean connectives pass it on; it lets a specification function choose between two EQUIVALENT encodings
        # (see specs/track_model.sf_twf), never what a clause means
        cur = getattr(self, "pol", 0)
        self.pol_here = cur
        keeps = isinstance(node, (ast.BoolOp, ast.IfExp)) or (isinstance(node, ast.UnaryOp) and isinstance(node.op, ast.Not)) or \
            (isinstance(node, ast.Call) and isinstance(node.func, ast.Name) and node.func.id in self.POLAR_CALLS)
        if keeps or cur == 0:
            return m(node, st)
        self.pol = 0
        try:
            return m(node, st)
        finally:
            self.pol = cur

    def e_Constant(self, node, st):
        v = node.value
        return self.const(v, node)

    def const(self, v, node=None):
        if isinstance(v, bool):
            return vbool(v)
        if isinstance(v, int):
            return vint(v)
        if isinstance(v, float):
            if v == float("inf") or abs(v) >= 1e300:
                self.ctx.math_used.add("big")
                return vfloat(mathlib.BIG)
            return vfloat(v)
        if isinstance(v, str):
            return strings.lit(v)
        if isinstance(v, complex):
            return Val(COMPLEX, [z3.RealVal(repr(v.real)) if not v.real.is_integer() else z3.RealVal(int(v.real)),
                                 z3.RealVal(repr(v.imag)) if not v.imag.is_integer() else z3.RealVal(int(v.imag))])
        if v is None:
            return vnone()
        if isinstance(v, (list, tuple)):
            items = [self.const(x) for x in v]
            if isinstance(v, tuple):
                return vtuple(items)
            return list_literal(items)
        if node is not None:
            self.unsupported(node, "constant %r" % (v,))
        raise OutOfSubset("constant %r" % (v,))

    def lookup_name(self, name, st, node=None):
        if name in self.bound:
            return self.bound[name]
        if name in st.vars:
            v = st.vars[name]
            if name in st.undef and not self.spec_mode:
                raise OutOfSubset("%s: variable %s may be unbound here (line %s)" % (
                    self.fi.qual, name, getattr(node, "lineno", "?")))
            if v is POISON:
                raise OutOfSubset("%s: variable %s is not definitely bound with one kind (line %s)" % (
                    self.fi.qual, name, getattr(node, "lineno", "?")))
            return v
        if self.spec_mode and name == "result":
            return self.result
        idx = self.ctx.reg.index
        key = (self.fi.module, name)
        if key in idx.consts:
            return self.const(idx.consts[key])
        if name in idx.classes:
            return Val(FUNC, [], py=("class", name))
        c = idx.const_by_name.get(name)
        if c:
            vals = [x[1] for x in c]
            if all(repr(x) == repr(vals[0]) for x in vals):
                return self.const(vals[0])
        f = self.resolve_function(name)
        if f is not None:
            return Val(FUNC, [], py=("func", f))
        if name in ("math", "np", "numpy", "sys", "copy", "progressbar", "tracklib", "plt", "random"):
            return Val(FUNC, [], py=("module", name))
        if name in self.ctx.reg.builtins or name in BUILTIN_NAMES:
            return Val(FUNC, [], py=("builtin", name))
        raise OutOfSubset("%s: unknown name %s (line %s)" % (self.fi.qual, name, getattr(node, "lineno", "?")))

    def resolve_function(self, name):
        reg = self.ctx.reg
        if name in reg.aliases:
            return reg.index.funcs.get(reg.aliases[name])
        return reg.index.find(name, self.fi.module)

    def e_Name(self, node, st):
        return self.lookup_name(node.id, st, node)

    def e_Tuple(self, node, st):
        return vtuple([self.eval(e, st) for e in node.elts])

    def e_List(self, node, st):
        if not node.elts:
            return Val(KList(NONE), [z3.IntVal(0)], py="emptylist")
        return list_literal([self.eval(e, st) for e in node.elts])

    def e_Dict(self, node, st):
        if node.keys:
            self.unsupported(node, "non-empty dict literal")
        return Val(NONE, [], py="emptydict")

    def e_UnaryOp(self, node, st):
        if isinstance(node.op, ast.Not):
            cur = getattr(self, "pol", 0)
            self.pol = -cur
            try:
                v = self.eval(node.operand, st)
            finally:
                self.pol = cur
            return vbool(not_(truth(v)))
        v = self.eval(node.operand, st)
        if isinstance(node.op, ast.USub):
            if is_intlike(v):
                return vint(-to_int(v))
            nan, x = to_float(v)
            return vfloat(-x, nan)
        if isinstance(node.op, ast.UAdd):
            return v
        self.unsupported(node)

    OPS = {ast.Add: "+", ast.Sub: "-", ast.Mult: "*", ast.Div: "/", ast.FloorDiv: "//", ast.Mod: "%", ast.Pow: "**"}

    DUNDER = {ast.Add: "__add__", ast.Sub: "__sub__", ast.Mult: "__mul__", ast.Mod: "__mod__", ast.Gt: "__gt__",
              ast.Lt: "__lt__", ast.Div: "__truediv__"}

    def binop(self, op, a, b, st, node):
        if isinstance(a.kind, KRef) and type(op) in self.DUNDER:
            fi = self.find_method(a.kind.cls, self.DUNDER[type(op)])
            if fi is None:
                raise OutOfSubset("no %s on %s" % (self.DUNDER[type(op)], a.kind.cls))
            return self.call_function(fi, [a, b], {}, st, node)
        if type(op) not in self.OPS:
            if isinstance(op, ast.BitAnd) and isinstance(a.kind, KBool) and isinstance(b.kind, KBool):
                return vbool(and_(a.terms[0], b.terms[0]))
            if isinstance(op, ast.BitOr) and isinstance(a.kind, KBool) and isinstance(b.kind, KBool):
                return vbool(or_(a.terms[0], b.terms[0]))
            if isinstance(op, ast.BitXor) and not (is_intlike(a) and is_intlike(b)):
                self.check(st, "TypeError", FALSE, node)
                raise OutOfSubset("float ^ float")
            if isinstance(op, ast.RShift) and is_intlike(a) and is_intlike(b):
                y = to_int(b)
                if z3.is_int_value(y) and y.as_long() == 1:
                    return vint(floor_div(to_int(a), z3.IntVal(2)))
            self.unsupported(node, "operator")
        return arith(self.OPS[type(op)], a, b, lambda what, cond: self.check(st, what, cond, node),
                     None if self.spec_mode else (lambda fact, q=None: self.ctx.add_hyp(fact, [q] if q else None)))

    def e_BinOp(self, node, st):
        a = self.eval(node.left, st)
        b = self.eval(node.right, st)
        return self.binop(node.op, a, b, st, node)

    CMP = {ast.Lt: "<", ast.LtE: "<=", ast.Gt: ">", ast.GtE: ">=", ast.Eq: "==", ast.NotEq: "!=",
           ast.Is: "is", ast.IsNot: "is not"}

    def e_Compare(self, node, st):
        left = self.eval(node.left, st)
        if len(node.ops) == 1 and isinstance(left.kind, KRef) and type(node.ops[0]) in (ast.Gt, ast.Lt, ast.GtE, ast.LtE) \
                and not self.spec_mode:
            # a rich comparison overloaded to return an object (Track > n trims the track): keep the value
            meth = {ast.Lt: "__lt__", ast.Gt: "__gt__", ast.LtE: "__le__", ast.GtE: "__ge__"}[type(node.ops[0])]
            fi = self.find_method(left.kind.cls, meth)
            if fi is not None:
                right = self.eval(node.comparators[0], st)
                r = self.call_function(fi, [left, right], {}, st, node)
                if not isinstance(r.kind, (KBool, KInt)):
                    return r
                return vbool(truth(r))
        res = TRUE
        cur = st
        for op, rnode in zip(node.ops, node.comparators):
            if len(node.ops) > 1 and not z3.is_true(res):
                cur = st.copy(and_(st.pc, res))
            right = self.eval(rnode, cur)
            res = and_(res, self.cmp1(op, left, right, cur, node))
            left = right
        return vbool(res)

    def cmp1(self, op, a, b, st, node):
        if isinstance(op, (ast.In, ast.NotIn)):
            r = self.contains(b, a, st, node)
            return r if isinstance(op, ast.In) else not_(r)
        # user-defined __eq__/__lt__ on references
        if isinstance(a.kind, KRef) and type(op) in (ast.Eq, ast.NotEq, ast.Lt, ast.Gt, ast.LtE, ast.GtE) \
                and not isinstance(b.kind, (KNone, KOpt)):
            meth = {ast.Eq: "__eq__", ast.NotEq: "__ne__", ast.Lt: "__lt__", ast.Gt: "__gt__",
                    ast.LtE: "__le__", ast.GtE: "__ge__"}[type(op)]
            fi = self.find_method(a.kind.cls, meth)
            if fi is None and meth == "__ne__":
                fi = self.find_method(a.kind.cls, "__eq__")
                if fi is not None:
                    return not_(truth(self.call_function(fi, [a, b], {}, st, node)))
            if fi is not None:
                return truth(self.call_function(fi, [a, b], {}, st, node))
        if isinstance(op, ast.Eq) and not self.spec_mode:
            # float == int in the code: remember the pair, so that a named floor of the float (calls.floor_of) comes with
            # the derived fact  x == n  ==>  floor(x) == n  (a consequence of the floor's two inequalities that the
            # solvers' branch-and-bound does not always find on unbounded integers)
            for u, v in ((a, b), (b, a)):
                if isinstance(u.kind, (KFloat, KReal)) and is_intlike(v):
                    x, n = to_float(u)[1], to_int(v)
                    self.ctx.__dict__.setdefault("float_int_eq", {}).setdefault(x.get_id(), []).append((x, n))
                    fc = self.ctx.__dict__.get("floor_cache", {})
                    if x.get_id() in fc:
                        self.ctx.add_hyp(implies(x == z3.ToReal(n), fc[x.get_id()][0] == n))
        return compare(self.CMP[type(op)], a, b)

    def contains(self, cont, x, st, node):
        if isinstance(cont.kind, KStr) and isinstance(x.kind, KStr) and isinstance(cont.py, str) and isinstance(x.py, str):
            return TRUE if x.py in cont.py else FALSE       # substring test of two string CONSTANTS: folded
        if isinstance(cont.kind, KList):
            if isinstance(cont.kind.elem, KNone):
                return FALSE
            n = list_len(cont)
            if z3.is_int_value(n) and n.as_long() <= 16:
                return or_(*[compare("==", list_get(cont, z3.IntVal(i)), x) for i in range(n.as_long())])
            i = z3.Int(uid("in"))
            if self.spec_mode:
                return z3.Exists([i], and_(i >= 0, i < n, compare("==", list_get(cont, i), x)))
            # in code the membership test becomes a propositional atom with a witness, so that path conditions and
            # merged values stay quantifier-free:  b -> element w is x ;  any element equal to x -> b
            b, w = z3.Bool(uid("member")), z3.Int(uid("memberw"))
            self.ctx.add_hyp(implies(b, and_(w >= 0, w < n, compare("==", list_get(cont, w), x))), [str(b)])
            self.ctx.add_hyp(z3.ForAll([i], implies(and_(i >= 0, i < n, compare("==", list_get(cont, i), x)), b)), [str(b)])
            return b
        if isinstance(cont.kind, KDict):
            from . import dicts
            return dicts.contains(cont, x)
        if isinstance(cont.kind, KSet):
            return set_contains(cont, x)
        self.unsupported(node, "in on %r" % (cont.kind,))

    def e_BoolOp(self, node, st):
        vals = []
        cur = st
        conds = []
        for i, sub in enumerate(node.values):
            v = self.eval(sub, cur)
            vals.append(v)
            if i < len(node.values) - 1:
                t = truth(v)
                g = t if isinstance(node.op, ast.And) else not_(t)
                if z3.is_false(g) or (not z3.is_true(g) and z3.is_false(z3.simplify(g))):
                    # statically short-circuited: the remaining operands are never evaluated
                    break
                conds.append(g)
                if not self.spec_mode:
                    cur = st.copy(and_(cur.pc, g))
        if all(isinstance(v.kind, KBool) for v in vals):
            ts = [v.terms[0] for v in vals]
            return vbool(and_(*ts) if isinstance(node.op, ast.And) else or_(*ts))
        res = vals[-1]
        for v, g in zip(reversed(vals[:-1]), reversed(conds)):
            res = ite(g, res, v)
        return res

    def e_IfExp(self, node, st):
        cur = getattr(self, "pol", 0)
        self.pol = 0
        try:
            c = truth(self.eval(node.test, st))
        finally:
            self.pol = cur
        a = self.eval(node.body, st if self.spec_mode else st.copy(and_(st.pc, c)))
        b = self.eval(node.orelse, st if self.spec_mode else st.copy(and_(st.pc, not_(c))))
        return ite(c, a, b)

    def e_Attribute(self, node, st):
        # module / class constants
        if isinstance(node.value, ast.Name) and node.value.id not in st.vars and node.value.id not in self.bound:
            base = node.value.id
            idx = self.ctx.reg.index
            if base in idx.classes:
                key = (idx.classes[base], base + "." + mangle(node.attr, self.fi.cls if base == self.fi.cls else base))
                if key in idx.consts:
                    return self.const(idx.consts[key])
                fi = self.find_method(base, mangle(node.attr, self.fi.cls))
                if fi is not None:
                    return Val(FUNC, [], py=("func", fi))
                if (base, node.attr) in idx.singletons:
                    # `NAME = Cls()` in a class body: the one instance, a reference below every allocated one
                    names = sorted(idx.singletons)
                    return vref(z3.IntVal(-1000 - names.index((base, node.attr))), idx.singletons[(base, node.attr)])
                raise OutOfSubset("class attribute %s.%s" % (base, node.attr))
            if base in ("math", "np", "numpy", "sys"):
                if node.attr == "pi":
                    self.ctx.math_used.add("pi")
                    return vfloat(3.141592653589793)
                if node.attr in ("inf",):
                    self.ctx.math_used.add("big")
                    return vfloat(mathlib.BIG)
                return Val(FUNC, [], py=("builtin", base + "." + node.attr))
        obj = self.eval(node.value, st)
        if isinstance(obj.kind, KFunc) and obj.py and obj.py[0] == "module":
            return Val(FUNC, [], py=("builtin", obj.py[1] + "." + node.attr))
        if isinstance(obj.kind, KFunc) and obj.py and obj.py[0] == "builtin" and obj.py[1] == "sys.float_info" and node.attr == "max":
            self.ctx.math_used.add("big")
            return vfloat(mathlib.BIG)
        if isinstance(obj.kind, KFunc) and obj.py and obj.py[0] == "func" and node.attr == "__name__":
            return strings.lit(obj.py[1].name)
        if isinstance(obj.kind, KRef):
            return self.read_field(st, obj, mangle(node.attr, self.fi.cls))
        if isinstance(obj.kind, KArr2) and node.attr == "shape":
            return vtuple([vint(obj.terms[0]), vint(obj.terms[1])])
        if isinstance(obj.kind, KOpt):
            self.check(st, "AttributeError-None", not_(obj.terms[0]), node)
            inner = opt_get(obj)
            if isinstance(inner.kind, KRef):
                return self.read_field(st, inner, mangle(node.attr, self.fi.cls))
        self.unsupported(node, "attribute .%s of %r" % (node.attr, obj.kind))

    def index_of(self, l, idx, st, node):
        """Python index semantics with negative wrap-around; emits the IndexError obligation."""
        i = to_int(idx)
        if not z3.is_int_value(i):
            si = z3.simplify(i)
            if z3.is_int_value(si):
                i = si
        n = list_len(l)
        if z3.is_int_value(i):
            if i.as_long() >= 0:
                self.check(st, "IndexError", i < n, node)
                return i
            self.check(st, "IndexError", -i <= n, node)
            return n + i
        top = self.ctx.top_spec
        if self.spec_mode or (top is not None and getattr(top, "negative_indices", False)):
            self.check(st, "IndexError", and_(i < n, i >= -n), node)
            if self.spec_mode:
                return i
            return if_(i < 0, i + n, i)
        # symbolic indices are required to be non-negative (a negative one would silently wrap around in Python);
        # proving 0 <= i keeps the wrap-around term out of every later formula.  Contracts of functions that index
        # from the end with a computed index set negative_indices=True.
        self.check(st, "IndexError-or-negative-index", and_(i >= 0, i < n), node)
        return i

    def e_Subscript(self, node, st):
        base = self.eval(node.value, st)
        sl = node.slice
        if isinstance(base.kind, KOpt):
            self.check(st, "TypeError-None", not_(base.terms[0]), node)
            base = opt_get(base)
        if isinstance(base.kind, KList):
            if isinstance(sl, ast.Slice):
                return self.slice(base, sl, st, node)
            idx = self.eval(sl, st)
            return list_get(base, self.index_of(base, idx, st, node))
        if isinstance(base.kind, KTuple):
            idx = self.eval(sl, st)
            t = to_int(idx)
            if z3.is_int_value(t):
                items = tuple_items(base)
                k = t.as_long()
                if -len(items) <= k < len(items):
                    return items[k]
                self.check(st, "IndexError", FALSE, node)
                raise OutOfSubset("tuple index out of range")
            items = tuple_items(base)
            if all(it.kind == items[0].kind for it in items):
                self.check(st, "IndexError", and_(t >= 0, t < len(items)), node)
                res = items[-1]
                for k in range(len(items) - 2, -1, -1):
                    res = ite(t == k, items[k], res)
                return res
            self.unsupported(node, "symbolic tuple index")
        if isinstance(base.kind, KArr2):
            if isinstance(sl, ast.Tuple) and len(sl.elts) == 2:
                i = to_int(self.eval(sl.elts[0], st))
                j = to_int(self.eval(sl.elts[1], st))
                i, j = self.arr2_index(base, i, j, st, node)
                return arr2_get(base, i, j)
            self.unsupported(node, "array subscript")
        if isinstance(base.kind, KDict):
            from . import dicts
            key = self.eval(sl, st)
            self.check(st, "KeyError", dicts.contains(base, key), node)
            return dicts.get(base, key)
        if isinstance(base.kind, KStr) and isinstance(sl, ast.Slice) and isinstance(base.py, str):
            # slice of a string CONSTANT with constant bounds: folded
            def cb(b):
                if b is None:
                    return None
                t = z3.simplify(to_int(self.eval(b, st)))
                if not z3.is_int_value(t):
                    self.unsupported(node, "string slice with a symbolic bound")
                return t.as_long()
            if sl.step is not None:
                self.unsupported(node, "string slice with a step")
            return strings.lit(base.py[cb(sl.lower):cb(sl.upper)])
        if isinstance(base.kind, KStr):
            idx = z3.simplify(to_int(self.eval(sl, st)))
            if z3.is_int_value(idx) and idx.as_long() == 0:
                return strings.first_char(base)      # (an empty string would raise IndexError: names are non-empty)
            self.unsupported(node, "string index other than [0]")
        if isinstance(base.kind, KRef):
            fi = self.find_method(base.kind.cls, "__getitem__")
            if fi is not None:
                return self.call_function(fi, [base, self.eval(sl, st)], {}, st, node)
        self.unsupported(node, "subscript of %r" % (base.kind,))

    def arr2_index(self, a, i, j, st, node):
        n0, n1 = a.terms[0], a.terms[1]
        def norm(t, n):
            if z3.is_int_value(t) and t.as_long() < 0:
                self.check(st, "IndexError", -t <= n, node)
                return n + t
            self.check(st, "IndexError", and_(t >= -n, t < n), node)
            if z3.is_int_value(t) or self.spec_mode:
                return t
            return if_(t < 0, t + n, t)
        return norm(i, n0), norm(j, n1)

    def slice(self, l, sl, st, node):
        n = list_len(l)
        def bound(b, dflt):
            if b is None:
                return dflt
            t = to_int(self.eval(b, st))
            t = if_(t < 0, if_(t + n < 0, z3.IntVal(0), t + n), if_(t > n, n, t))
            return z3.simplify(t) if z3.is_int_value(z3.simplify(t)) else t
        if sl.step is not None:
            stp = self.eval(sl.step, st)
            t = z3.simplify(to_int(stp))
            if z3.is_int_value(t) and t.as_long() == -1 and sl.lower is None and sl.upper is None:
                return list_reverse(l)
            if sl.lower is None and sl.upper is None:
                self.check(st, "ValueError-slice-step", t > 0, node)
                return list_stride(l, t)
            self.unsupported(node, "slice with step and bounds")
        lo = bound(sl.lower, z3.IntVal(0))
        hi = bound(sl.upper, n)
        return list_slice(l, lo, hi)

    # generator expressions only inside all()/any() in specs
    def quantify(self, gen, st, universal):
        if not isinstance(gen, ast.GeneratorExp):
            raise OutOfSubset("all()/any() need a generator expression")
        # a single generator over a small constant range is expanded (keeps the formula quantifier-free)
        if len(gen.generators) == 1 and not gen.generators[0].ifs:
            comp = gen.generators[0]
            it = comp.iter
            if isinstance(it, ast.Call) and isinstance(it.func, ast.Name) and it.func.id == "range" and isinstance(comp.target, ast.Name):
                args = [z3.simplify(to_int(self.eval(a, st))) for a in it.args]
                lo, hi = (z3.IntVal(0), args[0]) if len(args) == 1 else (args[0], args[1])
                if z3.is_int_value(lo) and z3.is_int_value(hi) and hi.as_long() - lo.as_long() <= 16:
                    saved = dict(self.bound)
                    parts = []
                    try:
                        for k in range(lo.as_long(), hi.as_long()):
                            self.bound = dict(saved)
                            self.bound[comp.target.id] = vint(k)
                            parts.append(truth(self.eval(gen.elt, st)))
                    finally:
                        self.bound = saved
                    return and_(*parts) if universal else or_(*parts)
        saved = self.bound
        self.bound = dict(saved)      # never mutate the dict in place: inlined / contracted callees share it
        vars_, guards, pats = [], [], []
        try:
            for comp in gen.generators:
                it = comp.iter
                if isinstance(it, ast.Call) and isinstance(it.func, ast.Name) and it.func.id == "range":
                    args = [to_int(self.eval(a, st)) for a in it.args]
                    lo, hi = (z3.IntVal(0), args[0]) if len(args) == 1 else (args[0], args[1])
                    assert isinstance(comp.target, ast.Name)
                    v = z3.Int(uid(comp.target.id))
                    self.bound[comp.target.id] = vint(v)
                    vars_.append(v)
                    guards.append(and_(v >= lo, v < hi))
                elif isinstance(it, ast.Call) and isinstance(it.func, ast.Name) and it.func.id == "refs":
                    v = z3.Int(uid(comp.target.id))
                    self.bound[comp.target.id] = vref(v, it.args[0].id)
                    vars_.append(v)
                elif isinstance(it, ast.Name) and it.id == "anys":
                    v = z3.Int(uid(comp.target.id))
                    self.bound[comp.target.id] = Val(ANY, [v])
                    vars_.append(v)
                elif isinstance(it, ast.Name) and it.id == "strs":
                    v = z3.Int(uid(comp.target.id))
                    self.bound[comp.target.id] = Val(STR, [v])
                    vars_.append(v)
                elif isinstance(it, ast.Name) and it.id in ("ints", "reals"):
                    v = z3.Int(uid(comp.target.id)) if it.id == "ints" else z3.Real(uid(comp.target.id))
                    self.bound[comp.target.id] = vint(v) if it.id == "ints" else vfloat(v)
                    vars_.append(v)
                else:
                    raise OutOfSubset("quantifier domain must be range(..), ints, reals, strs or refs(Class)")
                for cond in comp.ifs:
                    if isinstance(cond, ast.Call) and isinstance(cond.func, ast.Name) and cond.func.id == "pattern":
                        # `if pattern(t1, t2, ..)`: not a condition - the E-matching trigger of this quantifier (a
                        # multi-pattern when several terms are given); affects only how the solver instantiates it
                        for a in cond.args:
                            v = self.eval(a, st)
                            pats.append(v.terms[-1])
                        continue
                    cur = getattr(self, "pol", 0)
                    self.pol = 0
                    try:
                        guards.append(truth(self.eval(cond, st)))
                    finally:
                        self.pol = cur
            body = truth(self.eval(gen.elt, st))
        finally:
            self.bound = saved
        g = and_(*guards)
        if universal:
            import re as _re
            qid = _re.sub(r"[^A-Za-z0-9_.<>=+-]", "_", ast.unparse(gen))[:70]     # label only (solver statistics)
            if pats:
                try:
                    return z3.ForAll(vars_, implies(g, body), qid=qid, patterns=[z3.MultiPattern(*pats) if len(pats) > 1 else pats[0]])
                except z3.Z3Exception:
                    pass        # not a valid pattern (e.g. it does not mention every bound variable): automatic triggers
            return z3.ForAll(vars_, implies(g, body), qid=qid)
        return z3.Exists(vars_, and_(g, body))

    def e_Lambda(self, node, st):
        return Val(FUNC, [], py=("lambda", node, dict(st.vars)))

    def e_Call(self, node, st):
        from .calls import do_call
        return do_call(self, node, st)

    # ------------------------------------------------------------------ calls
    def find_method(self, cls, name):
        idx = self.ctx.reg.index
        c = cls
        while c is not None:
            fi = idx.find("%s.%s" % (c, mangle(name, c)), idx.classes.get(c))
            if fi is not None:
                return fi
            c = self.ctx.reg.subclasses.get(c)
        return None

    def pick_variant(self, fi, spec, args, kwargs, st):
        alts = self.ctx.reg.variants.get(fi.qual)
        if not alts:
            return spec
        for cand in ([spec] if spec is not None else []) + alts:
            try:
                formals = self.bind_args(fi, args, kwargs, st)
                for n, ktxt in cand.params.items():
                    if n in formals:
                        coerce(formals[n], self.kind_of(ktxt))
                for n, q in cand.bind.items():
                    v = formals.get(n)
                    if v is None or not (v.py and v.py[0] == "func" and v.py[1].qual == q):
                        raise OutOfSubset("bound function differs")
                self.check_defaults(fi, cand, args, kwargs, formals, st)
                return cand
            except OutOfSubset:
                continue
        return spec

    def call_function(self, fi, args, kwargs, st, node):
        """Call a repository function: by contract if it has one (and is not inline), else inline."""
        spec = self.pick_variant(fi, self.ctx.reg.spec_for(fi), args, kwargs, st)
        if spec is not None and not spec.inline:
            return self.call_by_contract(fi, spec, args, kwargs, st, node)
        if spec is None and fi.qual not in self.ctx.reg.auto_inline:
            raise OutOfSubset("call to %s which has no contract and is not declared inline" % fi.qual)
        return self.call_inline(fi, spec, args, kwargs, st, node)

    def bind_args(self, fi, args, kwargs, st):
        a = fi.node.args
        names = [x.arg for x in a.args]
        out = {}
        for n, v in zip(names, args):
            out[n] = v
        if len(args) > len(names):
            raise OutOfSubset("too many arguments for %s" % fi.qual)
        for k, v in kwargs.items():
            if k not in names:
                raise OutOfSubset("unexpected keyword %s for %s" % (k, fi.qual))
            out[k] = v
        defaults = a.defaults
        for n, d in zip(names[len(names) - len(defaults):], defaults):
            if n not in out:
                sub = Executor(self.ctx, fi, None)
                out[n] = sub.eval(d, State({}, st.heap, st.pc))
        for n in names:
            if n not in out:
                raise OutOfSubset("missing argument %s for %s" % (n, fi.qual))
        return out

    def check_defaults(self, fi, spec, args, kwargs, formals, st):
        """A parameter the contract does not mention is fixed to its default: a call passing anything else is
        outside the contract."""
        a = fi.node.args
        names = [x.arg for x in a.args]
        passed = set(names[:len(args)]) | set(kwargs)
        dflt = dict(zip(names[len(names) - len(a.defaults):], a.defaults))
        for n in passed:
            if n in spec.params or n in spec.bind:
                continue
            if n not in dflt:
                raise OutOfSubset("%s: argument %s is not covered by the contract" % (fi.qual, n))
            dv = Executor(self.ctx, fi, None).eval(dflt[n], State({}, st.heap, st.pc))
            v = formals[n]
            same = type(dv.kind) is type(v.kind) and len(dv.terms) == len(v.terms) and \
                all(z3.is_true(z3.simplify(x == y)) for x, y in zip(dv.terms, v.terms))
            if not same:
                raise OutOfSubset("%s: argument %s differs from the default value the contract fixes" % (fi.qual, n))

    MUTATORS = {"append", "extend", "insert", "pop", "remove", "sort", "reverse", "clear", "update", "add", "discard"}

    def mutated_formals(self, fi):
        """formals of `fi` whose container value is changed IN PLACE by its body (method call or element store), and those rebound"""
        hit = fi.__dict__.get("_mutated")
        if hit is None:
            formals = [a.arg for a in fi.node.args.args]
            mut, reb = set(), set()
            for n in ast.walk(fi.node):
                if isinstance(n, ast.Call) and isinstance(n.func, ast.Attribute) and isinstance(n.func.value, ast.Name) \
                        and n.func.value.id in formals and n.func.attr in self.MUTATORS:
                    mut.add(n.func.value.id)
                if isinstance(n, (ast.Assign, ast.AugAssign, ast.Delete)):
                    for t in (n.targets if isinstance(n, (ast.Assign, ast.Delete)) else [n.target]):
                        if isinstance(t, ast.Subscript) and isinstance(t.value, ast.Name) and t.value.id in formals:
                            mut.add(t.value.id)
                        if isinstance(t, ast.Name) and t.id in formals:
                            (mut if isinstance(n, ast.AugAssign) else reb).add(t.id)
            hit = fi.__dict__["_mutated"] = (mut, reb)
        return hit

    def aliased_actuals(self, fi, args, node):
        """{formal name: AST of the actual argument} for the positional arguments of a call (receiver excluded)"""
        if not isinstance(node, ast.Call) or any(isinstance(a, ast.Starred) for a in node.args):
            return {}
        names = [a.arg for a in fi.node.args.args]
        off = len(args) - len(node.args)
        out = {}
        for k, nm in enumerate(names):
            if 0 <= k - off < len(node.args):
                out[nm] = node.args[k - off]
        for kw in node.keywords:
            if kw.arg:
                out[kw.arg] = kw.value
        return out

    def call_inline(self, fi, spec, args, kwargs, st, node):
        if self.ctx.depth > 6:
            raise OutOfSubset("inline depth exceeded at %s" % fi.qual)
        self.ctx.inlined.add(fi.qual)
        sub = Executor(self.ctx, fi, spec)
        sub.spec_mode = self.spec_mode
        sub.old_state = self.old_state
        sub.tag = self.tag + fi.short + "~"
        sub.bound = self.bound
        # ghost variables of the enclosing contract stay visible (as ghost arguments only) to contracted calls made from inlined code
        og = dict(getattr(self, "outer_ghosts", {}))
        if self.spec is not None:
            for g in self.spec.ghost:
                if g in st.vars and st.vars[g] is not POISON:
                    og[g] = st.vars[g]
        sub.outer_ghosts = og
        formals = self.bind_args(fi, args, kwargs, st)
        if spec is not None:
            for n, ktxt in spec.params.items():
                if n in formals:
                    formals[n], _ = coerce(formals[n], self.kind_of(ktxt))
        inner = State(formals, st.heap, st.pc)
        if "$alloc" in st.vars:
            inner.vars["$alloc"] = st.vars["$alloc"]
        self.ctx.depth += 1
        try:
            out = sub.exec_block(fi.node.body, inner)
        finally:
            self.ctx.depth -= 1
        res = out.ret
        if out.normal is not None:
            out.normal.vars["$ret"] = vnone()
            res = merge(res, out.normal)
        if res is None:
            # every path raised
            st.pc = FALSE
            return vnone()
        st.heap = res.heap
        st.pc = res.pc
        if "$alloc" in res.vars:
            st.vars["$alloc"] = res.vars["$alloc"]
        # Python passes containers by reference: a list / dict / set the callee changes in place is changed for the caller too
        # (containers are values in the encoding, so the final value is written back to the caller's variable)
        if not self.spec_mode:
            mut, reb = self.mutated_formals(fi)
            actuals = self.aliased_actuals(fi, args, node)
            for nm in sorted(mut):
                v0 = formals.get(nm)
                if v0 is None or not isinstance(v0.kind, (KList, KDict, KSet)):
                    continue
                if nm in reb:
                    raise OutOfSubset("%s both rebinds and mutates its container parameter %s" % (fi.qual, nm))
                a = actuals.get(nm)
                if a is None or isinstance(a, (ast.List, ast.Dict, ast.Set, ast.ListComp, ast.Constant)):
                    continue            # a temporary: nobody else sees it
                if isinstance(a, (ast.Name, ast.Subscript, ast.Attribute)) and nm in res.vars and res.vars[nm] is not POISON:
                    tgt = ast.parse(ast.unparse(a), mode="eval").body
                    if isinstance(tgt, ast.Name):
                        tgt = ast.Name(id=tgt.id, ctx=ast.Store())
                    self.assign(tgt, res.vars[nm], st, node)
                else:
                    raise OutOfSubset("%s mutates its container parameter %s; the argument %s cannot be written back" % (fi.qual, nm, ast.unparse(a)))
        r = res.vars.get("$ret", vnone())
        if r is POISON:
            raise OutOfSubset("inlined %s returns values of incompatible kinds" % fi.qual)
        return r

    def call_by_contract(self, fi, spec, args, kwargs, st, node):
        self.ctx.called.add(fi.qual)
        if not spec.trusted and not self.spec_mode and fi.node is not None and hasattr(fi.node, "args"):
            # a callee that changes a container argument in place cannot be summarised by a value contract when the
            # caller still holds that container in a variable
            mut, _ = self.mutated_formals(fi)
            if mut:
                actuals = self.aliased_actuals(fi, args, node)
                for nm in mut:
                    a = actuals.get(nm)
                    k = spec.params.get(nm)
                    if a is not None and k and str(k).startswith(("list", "dict", "set")) and \
                            not isinstance(a, (ast.List, ast.Dict, ast.Set, ast.ListComp, ast.Constant)):
                        raise OutOfSubset("%s changes its container parameter %s in place: a call passing a variable is outside the contract model" % (fi.qual, nm))
        if spec.trusted:
            self.ctx.trusted_used.add(fi.qual)
        formals = self.bind_args(fi, args, kwargs, st)
        try:
            self.check_defaults(fi, spec, args, kwargs, formals, st)
        except OutOfSubset as e:
            # the call passes an argument the contract fixes to another value: allowed only on a dead path
            self.check(st, "call-outside-contract:%s" % fi.short, FALSE, node, kind="call-pre")
            st.pc = FALSE
            return fresh(self.kind_of(spec.returns), "ret_dead")
        for n, ktxt in spec.params.items():
            if n in formals:
                try:
                    formals[n], sc = coerce(formals[n], self.kind_of(ktxt))
                except OutOfSubset:
                    # an argument of a kind no contract of the callee accepts: allowed only on a dead path
                    self.check(st, "call-outside-contract:%s.%s" % (fi.short, n), FALSE, node, kind="call-pre")
                    st.pc = FALSE
                    return fresh(self.kind_of(spec.returns), "ret_dead")
                self.check(st, "arg-kind:" + fi.short + "." + n, sc, node, kind="call-pre")
        # ghost parameters: taken from the caller's ghost_calls map, else from a caller variable of the same name
        for g, ktxt in spec.ghost.items():
            src = None
            if self.spec is not None:
                # "callee#n" (n-th call of that callee in source order) takes precedence over "callee"
                occ = self.call_occurrence(node)
                gc = self.spec.ghost_calls
                if occ is not None and ("%s#%d" % (fi.short, occ[1])) in gc:
                    src = gc["%s#%d" % (fi.short, occ[1])].get(g)
                if src is None:
                    src = gc.get(fi.short, {}).get(g)
            if src is not None:
                saved = self.spec_mode
                self.spec_mode = True
                try:
                    gv = self.eval(ast.parse(src, mode="eval").body, st)
                finally:
                    self.spec_mode = saved
            elif g in st.vars and st.vars[g] is not POISON:
                gv = st.vars[g]
            elif g in getattr(self, "outer_ghosts", {}):
                gv = self.outer_ghosts[g]
            else:
                raise OutOfSubset("%s: no value for ghost parameter %s of %s" % (self.fi.qual, g, fi.qual))
            formals[g], _ = coerce(gv, self.kind_of(ktxt))
        sub = Executor(self.ctx, fi, spec)
        sub.spec_mode = True
        sub.bound = self.bound
        pre = State(formals, dict(st.heap), st.pc)
        if spec.decreases is not None and self.ctx.top_exec is not None and fi.qual == self.ctx.top_exec.fi.qual \
                and not self.spec_mode:
            # recursive call: the variant is non-negative at entry and strictly smaller for the callee
            top = self.ctx.top_exec
            v0 = to_int(top.eval_spec_term(spec.decreases, top.old_state))
            v1 = to_int(sub.eval_spec_term(spec.decreases, pre))
            self.ctx.oblige(st, "%svariant:%s@%s" % (self.tag, fi.short, self._site(node)), and_(v0 >= 0, v1 < v0),
                            "variant", getattr(node, "lineno", None))
        sub.old_state = pre
        for i, r in enumerate(spec.requires):
            c = sub.eval_spec(r[1] if isinstance(r, tuple) else r, pre)
            if not self.spec_mode:
                self.ctx.oblige(st, "%scall-pre:%s#%d@%s" % (self.tag, fi.short, i, self._site(node)), c, "call-pre",
                                getattr(node, "lineno", None))
        # exceptional exits
        for exc, cond in spec.raises.items():
            c = sub.eval_spec(cond, pre)
            if not z3.is_false(c):
                self.raise_exc(st.copy(and_(st.pc, c)), exc, node)
                st.pc = and_(st.pc, not_(c))
        # frame: havoc what the callee may modify
        post = State(dict(formals), dict(st.heap), st.pc)
        a0 = st.vars.get("$alloc", vint(z3.Int("alloc0")))
        a1 = vint(z3.Int(uid("alloc")))
        self.ctx.assume(st, a1.terms[0] >= a0.terms[0])
        pre.vars["$alloc"] = a0
        post.vars["$alloc"] = a1
        st.vars["$alloc"] = a1
        for m in spec.modifies:
            cls, field = m.split(".")
            k = self.ctx.reg.fields[(cls, field)]
            sub.heap_arrays(post, cls, field)
            post.heap[(cls, field)] = [z3.Const(uid("H_%s_%s" % (cls, field)), z3.ArraySort(z3.IntSort(), s))
                                       for s in flat(k)]
            self.assume_list_lengths(k, post.heap[(cls, field)])
        for (cls, field), k in self.ctx.reg.fields.items():
            if cls in spec.fresh and (cls + "." + field) not in spec.modifies:
                olda = sub.heap_arrays(post, cls, field)
                r = z3.Int(uid("fr"))
                # objects of a `fresh` class that existed before the call keep the field; only objects allocated by
                # the call may differ (lambda term; measured better than a quantified frame axiom on C15 / C17)
                if getattr(spec, "frame_axiom", False):
                    # alternative encoding (per contract): a new array with a quantified frame axiom
                    newa = [z3.Const(uid("H_%s_%s" % (cls, field)), o.sort()) for o in olda]
                    for o, nw in zip(olda, newa):
                        self.ctx.assume(st, z3.ForAll([r], implies(r < a0.terms[0], z3.Select(nw, r) == z3.Select(o, r)),
                                                      patterns=[z3.Select(nw, r)]))
                    post.heap[(cls, field)] = newa
                    continue
                post.heap[(cls, field)] = [
                    z3.Lambda([r], z3.If(r < a0.terms[0], z3.Select(o, r),
                                         z3.Select(z3.Const(uid("H_%s_%s" % (cls, field)), o.sort()), r)))
                    for o in olda]
        rk = self.kind_of(spec.returns)
        res = fresh(rk, "ret_" + fi.name)
        for fact in basic_facts(res):
            self.ctx.hyps.append(fact)
        sub.result = res
        if spec.denotes:
            self.ctx.assume(st, to_float(res)[1] == spec.den_fn(*[to_float(formals[n])[1] for n in spec.params]))
        defs = None
        if not spec.modifies and not spec.fresh and res.terms:
            defs = [str(t) for t in res.terms]
        for e in spec.ensures:
            self.ctx.assume(st, sub.eval_spec(e[1] if isinstance(e, tuple) else e, post, assumed=True), defs)
        st.heap = post.heap
        if self is self.ctx.top_exec and not self.spec_mode and isinstance(node, ast.Call):
            # ghost name for the result of the n-th call (source order) of this callee: ret<n>_<name>, for hints
            o = self.call_occurrence(node)
            if o is not None and res.terms:
                nm, k = o
                st.vars["ret%d_%s" % (k, nm.lstrip("_"))] = res
        return res

    def call_occurrence(self, node):
        """(callee name, n) when `node` is the n-th call of that name in this function's source order"""
        occ = self.__dict__.get("_call_occ")
        if occ is None:
            occ, cnt = {}, {}
            calls = [x for x in ast.walk(self.fi.node) if isinstance(x, ast.Call)]
            for c in sorted(calls, key=lambda x: (x.lineno, x.col_offset)):
                f = c.func
                nm = f.id if isinstance(f, ast.Name) else (f.attr if isinstance(f, ast.Attribute) else None)
                if nm:
                    cnt[nm] = cnt.get(nm, 0) + 1
                    occ[id(c)] = (nm, cnt[nm])
            self._call_occ = occ
        return occ.get(id(node))

    def raise_exc(self, st, exc, node):
        """A path raises `exc`: allowed only if the top-level contract says so."""
        if self.spec_mode or z3.is_false(st.pc):
            return
        stack = self.ctx.__dict__.get("try_stack")
        if stack and stack[-1]["ex"] is self and exc in stack[-1]["excs"]:
            stack[-1]["states"].append(st)
            return
        top = self.ctx.top_spec
        allowed = FALSE
        if top is not None and exc in top.raises:
            topex = self.ctx.top_exec
            allowed = topex.eval_spec(top.raises[exc], topex.old_state)
        self.ctx.oblige(st, "%sraise:%s@%s" % (self.tag, exc, self._site(node)), allowed, "raise",
                        getattr(node, "lineno", None))

    def eval_spec_term(self, text, st):
        saved = self.spec_mode
        self.spec_mode = True
        try:
            return self.eval(ast.parse(text.strip(), mode="eval").body, st)
        finally:
            self.spec_mode = saved

    def eval_spec(self, text, st, assumed=False):
        """Evaluate a contract clause (a Python expression string, or a callable) to a z3 Bool.
        `assumed`: the formula will only be used as a hypothesis (never as a proof goal)."""
        if callable(text):
            return text(self, st)
        saved = self.spec_mode, getattr(self, "pol", 0), getattr(self, "assumed", False)
        self.spec_mode = True
        self.pol, self.assumed = 1, assumed
        try:
            tree = ast.parse(text.strip(), mode="eval").body
            v = self.eval(tree, st)
            return truth(v)
        finally:
            self.spec_mode, self.pol, self.assumed = saved

    # ------------------------------------------------------------------ statements
    def exec_block(self, stmts, st):
        out = Outcomes()
        cur = st
        for s in stmts:
            if cur is None or z3.is_false(cur.pc):
                cur = None
                break
            o = self.exec_stmt(s, cur)
            if self.spec is not None and self.spec.at and (self is self.ctx.top_exec or self.spec.inline) and o.normal is not None:
                self.site_hints(s, o.normal)
            out.brk = merge(out.brk, o.brk)
            out.cont = merge(out.cont, o.cont)
            out.ret = merge(out.ret, o.ret)
            cur = o.normal
        out.normal = cur
        return out

    def site_hints(self, node, st):
        try:
            key = ast.unparse(node).splitlines()[0].strip()
        except Exception:
            return
        occ = self.__dict__.get("_at_occ")
        if occ is None:
            # occurrence number of each statement among those with the same text, in source order
            occ, cnt = {}, {}
            for n in sorted((x for x in ast.walk(self.fi.node) if isinstance(x, ast.stmt)),
                            key=lambda x: (x.lineno, x.col_offset)):
                if True:
                    try:
                        k = ast.unparse(n).splitlines()[0].strip()
                    except Exception:
                        continue
                    cnt[k] = cnt.get(k, 0) + 1
                    occ[id(n)] = cnt[k]
            self._at_occ = occ
        nth = occ.get(id(node), 1)
        hints = self.spec.at.get("%s#%d" % (key, nth))
        if hints is None and nth == 1:
            hints = self.spec.at.get(key)
        if not hints:
            return
        self.__dict__.setdefault("_at_used", set()).add(key)
        for h in hints:
            name, text = (h[0], h[1]) if isinstance(h, tuple) else ("#", h)
            if isinstance(h, tuple) and len(h) == 3:
                # ("name", clause, [schema instances]): the instances (each a proved library lemma) serve this step only -
                # they are premises of its obligation and are NOT added to the context of later obligations
                local = [self.eval_spec(u[4:] if u.startswith("use ") else u, st) for u in h[2]]
                cl = self.eval_spec(text, st)
                self.ctx.oblige(st, "%shave:%s" % (self.tag, name), implies(and_(*local), cl), "hint", getattr(node, "lineno", None))
                self.ctx.assume(st, cl)
                continue
            if isinstance(text, str) and text.startswith("use "):
                self.ctx.assume(st, self.eval_spec(text[4:], st))
                continue
            if isinstance(text, str) and text.startswith("ghost "):
                # ghost assignment `ghost NAME = EXPR`: specification-only state, never read by the code
                gname, gexpr = text[6:].split("=", 1)
                saved = self.spec_mode
                self.spec_mode = True
                try:
                    gv = self.eval(ast.parse(gexpr.strip(), mode="eval").body, st)
                finally:
                    self.spec_mode = saved
                tgt = ast.parse(gname.strip(), mode="eval").body      # a ghost name, or an element of a ghost list (G[-1] = ...)
                if isinstance(tgt, ast.Name):
                    tgt = ast.Name(id=tgt.id, ctx=ast.Store())
                self.assign(tgt, gv, st, node)
                continue
            cl = self.eval_spec(text, st)
            self.ctx.oblige(st, "%shave:%s" % (self.tag, name), cl, "hint", getattr(node, "lineno", None))
            self.ctx.assume(st, cl)

    def exec_stmt(self, node, st):
        if self.spec is not None and self.spec.assume_stmt and isinstance(node, ast.Assign):
            try:
                key = ast.unparse(node).splitlines()[0].strip()
            except Exception:
                key = None
            if key in self.spec.assume_stmt:
                var, ktxt, clause = self.spec.assume_stmt[key]
                v = fresh(self.kind_of(ktxt), "assumed_" + var)
                self.assign(ast.Name(id=var, ctx=ast.Store()), v, st, node)
                self.ctx.assume(st, self.eval_spec(clause, st, assumed=True))
                self.ctx.dropped.append("%s:%d ASSUMED (not executed): `%s` leaves %s with: %s"
                                        % (self.fi.path, node.lineno, key, var, clause))
                return Outcomes(normal=st)
        m = getattr(self, "s_" + type(node).__name__, None)
        if m is None:
            self.unsupported(node)
        return m(node, st)

    def s_Pass(self, node, st):
        return Outcomes(normal=st)

    def s_Expr(self, node, st):
        v = node.value
        if isinstance(v, ast.Constant):
            self.ctx.dropped.append("%s:%d docstring/literal" % (self.fi.path, node.lineno))
            return Outcomes(normal=st)
        if isinstance(v, ast.Call) and isinstance(v.func, ast.Name) and v.func.id == "print":
            self.ctx.dropped.append("%s:%d print(...)" % (self.fi.path, node.lineno))
            return Outcomes(normal=st)
        if isinstance(v, ast.Call) and isinstance(v.func, ast.Attribute) and v.func.attr in self.ctx.reg.trace_calls:
            # console trace helpers (HMM.printTrace / printSeparator): output only, dropped (DESIGN 2.1)
            self.ctx.dropped.append("%s:%d %s(...) trace call" % (self.fi.path, node.lineno, v.func.attr))
            return Outcomes(normal=st)
        self.eval(v, st)
        return Outcomes(normal=st)

    def s_Return(self, node, st):
        v = self.eval(node.value, st) if node.value is not None else vnone()
        if self.spec is not None and self.spec.returns is not None and not self.spec.inline:
            # every returned value is converted to the declared return kind here, so that paths returning values
            # of unrelated kinds (a float on one branch, an object on another) need not be merged: a path whose
            # value cannot have the declared kind must be unreachable under the contract's precondition
            rk = self.kind_of(self.spec.returns)
            try:
                if v.py == "emptylist" and isinstance(rk, KList):
                    v = list_empty(rk.elem)
                v, sc = coerce(v, rk)
                self.check(st, "return-kind", sc, node)
            except OutOfSubset:
                self.check(st, "return-kind-unreachable", FALSE, node)
                return Outcomes()
        st.vars["$ret"] = v
        return Outcomes(ret=st)

    def s_Break(self, node, st):
        return Outcomes(brk=st)

    def s_Continue(self, node, st):
        return Outcomes(cont=st)

    def s_Raise(self, node, st):
        exc = "Exception"
        e = node.exc
        if isinstance(e, ast.Call):
            e = e.func
        if isinstance(e, ast.Name):
            exc = e.id
        self.raise_exc(st, exc, node)
        return Outcomes()

    def s_Assert(self, node, st):
        c = truth(self.eval(node.test, st))
        self.raise_exc(st.copy(and_(st.pc, not_(c))), "AssertionError", node)
        st.pc = and_(st.pc, c)
        return Outcomes(normal=st)

    def s_If(self, node, st):
        c = truth(self.eval(node.test, st))
        c = z3.simplify(c) if z3.is_bool(c) and (z3.is_true(z3.simplify(c)) or z3.is_false(z3.simplify(c))) else c
        if z3.is_true(c):
            return self.exec_block(node.body, st)
        if z3.is_false(c):
            return self.exec_block(node.orelse, st)
        s1 = st.copy(and_(st.pc, c))
        s2 = st.copy(and_(st.pc, not_(c)))
        p1, p2 = s1.pc, s2.pc
        o1 = self.exec_block(node.body, s1)
        o2 = self.exec_block(node.orelse, s2)
        out = Outcomes()
        if o1.normal is not None and o2.normal is not None and o1.normal.pc.eq(p1) and o2.normal.pc.eq(p2):
            out.normal = merge(o1.normal, o2.normal, sel=c)
            out.normal.pc = st.pc
        else:
            out.normal = merge(o1.normal, o2.normal)
        out.brk = merge(o1.brk, o2.brk)
        out.cont = merge(o1.cont, o2.cont)
        out.ret = merge(o1.ret, o2.ret)
        return out

    # --- assignment
    def s_Assign(self, node, st):
        nv = node.value
        if len(node.targets) == 1 and isinstance(node.targets[0], ast.Name) and node.targets[0].id in self.ctx.reg.trace_vars:
            self.ctx.dropped.append("%s:%d assignment of trace text %s" % (self.fi.path, node.lineno, node.targets[0].id))
            st.vars[node.targets[0].id] = POISON
            return Outcomes(normal=st)
        if isinstance(nv, ast.Call) and isinstance(nv.func, ast.Attribute) and nv.func.attr == "format" \
                and isinstance(nv.func.value, ast.Constant) and isinstance(nv.func.value.value, str):
            self.ctx.dropped.append("%s:%d assignment of a formatted message string" % (self.fi.path, node.lineno))
            for t in node.targets:
                if isinstance(t, ast.Name):
                    st.vars[t.id] = POISON
            return Outcomes(normal=st)
        v = self.eval(node.value, st)
        for t in node.targets:
            self.assign(t, v, st, node)
        return Outcomes(normal=st)

    def s_AnnAssign(self, node, st):
        if node.value is not None:
            self.assign(node.target, self.eval(node.value, st), st, node)
        return Outcomes(normal=st)

    def s_AugAssign(self, node, st):
        if isinstance(node.target, ast.Name) and node.target.id in self.ctx.reg.trace_vars:
            self.ctx.dropped.append("%s:%d update of trace text %s" % (self.fi.path, node.lineno, node.target.id))
            return Outcomes(normal=st)
        cur = self.eval(node.target, st)
        rhs = self.eval(node.value, st)
        if isinstance(cur.kind, KList) and isinstance(node.op, ast.Add):
            v = list_concat(cur, rhs)
        else:
            v = self.binop(node.op, cur, rhs, st, node)
        self.assign(node.target, v, st, node)
        return Outcomes(normal=st)

    def declared_local(self, name):
        k = (self.spec.locals.get(name) if self.spec is not None else None)
        return self.kind_of(k) if k is not None else None

    def assign(self, target, v, st, node):
        if isinstance(target, ast.Name):
            dk = self.declared_local(target.id)
            if v.py == "emptyset":
                if dk is None:
                    raise OutOfSubset("%s: kind of empty set %s must be declared (spec.locals)" % (self.fi.qual, target.id))
                v = set_empty(dk)
            elif v.py == "emptydict":
                if dk is None:
                    raise OutOfSubset("%s: kind of empty dict %s must be declared (spec.locals)" % (self.fi.qual, target.id))
                from . import dicts
                v = dicts.empty(dk)
            elif v.py == "emptylist":
                if dk is None:
                    old = st.vars.get(target.id)
                    if old is not None and old is not POISON and isinstance(old.kind, KList):
                        dk = old.kind
                if dk is None:
                    raise OutOfSubset("%s: kind of empty list %s must be declared (spec.locals)" % (self.fi.qual, target.id))
                v = list_empty(dk.elem)
            elif dk is not None:
                v, sc = coerce(v, dk)
                self.check(st, "local-kind:" + target.id, sc, node)
            st.vars[target.id] = v
            st.undef.discard(target.id)
            return
        if isinstance(target, (ast.Tuple, ast.List)):
            if isinstance(v.kind, KTuple):
                items = tuple_items(v)
            elif isinstance(v.kind, KList) and z3.is_int_value(v.terms[0]):
                items = [list_get(v, z3.IntVal(i)) for i in range(v.terms[0].as_long())]
            elif isinstance(v.kind, KOpt) and isinstance(v.kind.elem, KTuple):
                self.check(st, "TypeError-unpack-None", not_(v.terms[0]), node)
                items = tuple_items(opt_get(v))
            elif isinstance(v.kind, KList):
                # a list of symbolic length unpacked into k targets: ValueError unless it has exactly k elements
                self.check(st, "ValueError-unpack-length", v.terms[0] == len(target.elts), node)
                items = [list_get(v, z3.IntVal(i)) for i in range(len(target.elts))]
            else:
                self.unsupported(node, "unpacking %r" % (v.kind,))
            if len(items) != len(target.elts):
                self.unsupported(node, "unpacking arity")
            for t, it in zip(target.elts, items):
                self.assign(t, it, st, node)
            return
        if isinstance(target, ast.Attribute):
            obj = self.eval(target.value, st)
            if not isinstance(obj.kind, KRef):
                self.unsupported(node, "attribute store on %r" % (obj.kind,))
            if v.py == "emptylist":
                v = list_empty(self.ctx.reg.fields[(self.owner_class(obj.kind.cls, mangle(target.attr, self.fi.cls)),
                                                     mangle(target.attr, self.fi.cls))].elem)
            if v.py == "emptydict":
                from . import dicts
                v = dicts.empty(self.ctx.reg.fields[(self.owner_class(obj.kind.cls, mangle(target.attr, self.fi.cls)),
                                                      mangle(target.attr, self.fi.cls))])
            if v.py == "emptyset":
                v = set_empty(self.ctx.reg.fields[(self.owner_class(obj.kind.cls, mangle(target.attr, self.fi.cls)),
                                                   mangle(target.attr, self.fi.cls))])
            self.write_field(st, obj, mangle(target.attr, self.fi.cls), v, node)
            return
        if isinstance(target, ast.Subscript):
            base = self.eval(target.value, st)
            if isinstance(base.kind, KList):
                i = self.index_of(base, self.eval(target.slice, st), st, node)
                if v.py == "emptylist":
                    v = list_empty(base.kind.elem.elem)
                nl, sc = list_set(base, i, v)
                self.check(st, "store-kind", sc, node)
                self.assign(target.value, nl, st, node)
                return
            if isinstance(base.kind, KArr2):
                sl = target.slice
                if isinstance(sl, ast.Tuple) and len(sl.elts) == 2:
                    i = to_int(self.eval(sl.elts[0], st))
                    j = to_int(self.eval(sl.elts[1], st))
                    i, j = self.arr2_index(base, i, j, st, node)
                    na, sc = arr2_set(base, i, j, v)
                    self.check(st, "store-kind", sc, node)
                    self.assign(target.value, na, st, node)
                    return
            if isinstance(base.kind, KDict):
                self.assign(target.value, self.dict_set(base, self.eval(target.slice, st), v, st, node), st, node)
                return
            if isinstance(base.kind, KRef):
                fi = self.find_method(base.kind.cls, "__setitem__")
                if fi is not None:
                    self.call_function(fi, [base, self.eval(target.slice, st), v], {}, st, node)
                    return
            self.unsupported(node, "subscript store on %r" % (base.kind,))
        self.unsupported(node, "assignment target")

    def dict_set(self, d, key, v, st, node):
        from . import dicts
        nd, sc = dicts.set_(d, key, v)
        self.check(st, "store-kind", sc, node)
        return nd

    def s_Delete(self, node, st):
        for t in node.targets:
            if isinstance(t, ast.Subscript):
                base = self.eval(t.value, st)
                if isinstance(base.kind, KList):
                    i = self.index_of(base, self.eval(t.slice, st), st, node)
                    self.assign(t.value, list_delete(base, i), st, node)
                    continue
                if isinstance(base.kind, KDict):
                    from .calls import dict_delete
                    self.assign(t.value, dict_delete(self, base, self.eval(t.slice, st), st, node), st, node)
                    continue
            self.unsupported(node, "del")
        return Outcomes(normal=st)

    def s_Try(self, node, st):
        """try: BODY except IndexError: HANDLER.  An IndexError raised by a subscript of BODY itself, or by a call of
        BODY whose contract lists IndexError under `raises`, transfers the state at that point to HANDLER (a raising
        contracted call leaves the state as it was: its contract is stated for read-only callees).  Code inlined
        into BODY is not covered: its IndexError-freedom stays an obligation."""
        if node.orelse or node.finalbody:
            self.unsupported(node, "try/else/finally")
        if len(node.handlers) != 1:
            self.unsupported(node, "several except clauses")
        h = node.handlers[0]
        if not (isinstance(h.type, ast.Name) and h.type.id == "IndexError"):
            self.unsupported(node, "except clause other than IndexError")
        stack = self.ctx.__dict__.setdefault("try_stack", [])
        frame = dict(ex=self, excs={"IndexError"}, states=[])
        stack.append(frame)
        try:
            out = self.exec_block(node.body, st)
        finally:
            stack.pop()
        if not frame["states"]:
            self.ctx.dropped.append("%s:%d except IndexError handler (unreachable: no subscript or contracted call of the "
                                    "try body can raise it)" % (self.fi.path, h.lineno))
            return out
        es = None
        for x in frame["states"]:
            es = merge(es, x)
        ho = self.exec_block(h.body, es)
        res = Outcomes()
        res.normal = merge(out.normal, ho.normal)
        res.brk = merge(out.brk, ho.brk)
        res.cont = merge(out.cont, ho.cont)
        res.ret = merge(out.ret, ho.ret)
        return res

    # --- loops
    def s_For(self, node, st):
        from .loops import exec_for
        return exec_for(self, node, st)

    def s_While(self, node, st):
        from .loops import exec_while
        return exec_while(self, node, st)


def spec_allocates(spec):
    return isinstance(parse_kind(spec.returns) if isinstance(spec.returns, str) else spec.returns, KRef)


BUILTIN_NAMES = {"len", "abs", "min", "max", "int", "float", "isinstance", "range", "print", "str", "list", "type",
                 "all", "any", "implies", "old", "bool", "round", "exit", "sum", "enumerate", "set", "dict", "tuple"}
