"""Spec functions available to every contract."""
import z3
from .kinds import *
from .values import *


def sf_isnew(ex, st, r):
    """r was allocated during the call (>= allocation counter at entry, < counter now)."""
    a0 = ex.old_state.vars["$alloc"].terms[0]
    a1 = st.vars["$alloc"].terms[0]
    return vbool(and_(r.terms[0] >= a0, r.terms[0] < a1))


def sf_isold(ex, st, r):
    return vbool(r.terms[0] < st.vars["$alloc"].terms[0])


def sf_isnan(ex, st, x):
    if isinstance(x.kind, (KFloat,)):
        return vbool(x.terms[0])
    return vbool(FALSE)


def same_val(a, b):
    """Structural identity of two symbolic values (NaN is the same as NaN; lists: same length, same cells)."""
    if type(a.kind) is not type(b.kind):
        k = join_kinds(a.kind, b.kind)
        a, _ = coerce(a, k)
        b, _ = coerce(b, k)
    if isinstance(a.kind, KOpt):
        return and_(a.terms[0] == b.terms[0], or_(a.terms[0], same_val(opt_get(a), opt_get(b))))
    if isinstance(a.kind, KList):
        i = z3.Int(uid("sm"))
        cell = same_val(list_get(a, i), list_get(b, i))
        return and_(a.terms[0] == b.terms[0], z3.ForAll([i], implies(and_(i >= 0, i < a.terms[0]), cell)))
    if isinstance(a.kind, KFloat):
        return and_(a.terms[0] == b.terms[0], or_(a.terms[0], a.terms[1] == b.terms[1]))
    if isinstance(a.kind, KTuple):
        return and_(*[same_val(x, y) for x, y in zip(tuple_items(a), tuple_items(b))])
    return and_(*[x == y for x, y in zip(a.terms, b.terms)])


def sf_same(ex, st, a, b):
    return vbool(same_val(a, b))


def _heap_pair(ex, st, spec):
    cls, field = spec.split(".")
    cls2 = ex.owner_class(cls, field) or cls
    new = ex.heap_arrays(st, cls2, field)
    old = ex.heap_arrays(ex.old_state, cls2, field)
    return ex.ctx.reg.fields[(cls2, field)], new, old


def sf_unchanged(ex, st, *names):
    """unchanged('Cls.field', ...): the whole field map is as at entry."""
    out = []
    for n in names:
        k, new, old = _heap_pair(ex, st, n.py)
        out += [x == y for x, y in zip(new, old) if not x.eq(y)]
    return vbool(and_(*out))


def sf_unchanged_except(ex, st, name, *objs):
    """unchanged_except('Cls.field', o1, o2, ...): every object other than o1.. has the field as at entry."""
    k, new, old = _heap_pair(ex, st, name.py)
    if all(x.eq(y) for x, y in zip(new, old)):
        return vbool(TRUE)
    r = z3.Int(uid("ue"))
    diff = and_(*[r != o.terms[0] for o in objs])
    return vbool(z3.ForAll([r], implies(diff, and_(*[z3.Select(x, r) == z3.Select(y, r) for x, y in zip(new, old)]))))


def sf_unchanged_old(ex, st, *names):
    """unchanged_old('Cls.field', ...): every object that existed at entry has the field as at entry
    (objects allocated since may hold anything)."""
    a0 = ex.old_state.vars["$alloc"].terms[0]
    out = []
    for n in names:
        k, new, old = _heap_pair(ex, st, n.py)
        if all(x.eq(y) for x, y in zip(new, old)):
            continue
        r = z3.Int(uid("uo"))
        out.append(z3.ForAll([r], implies(r < a0, and_(*[z3.Select(x, r) == z3.Select(y, r) for x, y in zip(new, old)]))))
    return vbool(and_(*out))


def sf_untouched(ex, st, obj, *names):
    """untouched(o, 'Cls.field', ...): the object's field is EXACTLY as at entry (for a list field: the same length and
    the same underlying sequence, not only equal elements) - what a frame obligation of a caller needs."""
    out = []
    r = obj.terms[-1] if isinstance(obj.kind, KOpt) else obj.terms[0]
    for n in names:
        k, new, old = _heap_pair(ex, st, n.py)
        out += [z3.Select(x, r) == z3.Select(y, r) for x, y in zip(new, old) if not x.eq(y)]
    return vbool(and_(*out))


def sf_fdiv(ex, st, x, y):
    """x / y as the uninterpreted division symbol the code encoding also uses (pyvc.values.FDIV)"""
    from .values import FDIV
    nx, xv = to_float(x)
    ny, yv = to_float(y)
    return vfloat(FDIV(xv, yv), or_(nx, ny))


def sf_unchanged_old_class(ex, st, cls):
    """every field of every object of the class that existed at entry is as at entry"""
    names = [Val(STR, [], py="%s.%s" % (c, f)) for (c, f) in sorted(ex.ctx.reg.fields) if c == cls.py]
    return sf_unchanged_old(ex, st, *names)


def sf_nonnull(ex, st, x):
    """the value of an optional known (by the surrounding guard) not to be None"""
    return opt_get(x) if isinstance(x.kind, KOpt) else x


def sf_at_entry(ex, st, *a):
    raise OutOfSubset("at_entry is a special form")


def install(reg):
    reg.specfuncs.update(isnew=sf_isnew, isold=sf_isold, isnan=sf_isnan, same=sf_same, unchanged=sf_unchanged,
                         unchanged_except=sf_unchanged_except, unchanged_old=sf_unchanged_old, fdiv=sf_fdiv,
                         unchanged_old_class=sf_unchanged_old_class, nonnull=sf_nonnull, untouched=sf_untouched)


# ---------------------------------------------------------------- folds over float lists
_B = z3.ArraySort(z3.IntSort(), z3.BoolSort())
_R = z3.ArraySort(z3.IntSort(), z3.RealSort())
SUMNN = z3.Function("sumnn", _B, _R, z3.IntSort(), z3.RealSort())      # sum of the non-NaN among the first n
COUNTNN = z3.Function("countnn", _B, z3.IntSort(), z3.IntSort())       # number of non-NaN among the first n


def _float_list(l):
    if not isinstance(l.kind, KList):
        raise OutOfSubset("fold over %r" % (l.kind,))
    if isinstance(l.kind.elem, KFloat):
        return l.terms[1], l.terms[2]
    if isinstance(l.kind.elem, KReal):
        return z3.K(z3.IntSort(), FALSE), l.terms[1]
    raise OutOfSubset("fold over list of %r" % (l.kind.elem,))


def sf_sumnn(ex, st, l, n):
    a, b = _float_list(l)
    return vfloat(SUMNN(a, b, to_int(n)))


def sf_countnn(ex, st, l, n):
    a, b = _float_list(l)
    return vint(COUNTNN(a, to_int(n)))


def ax_sumnn():
    a, b, n = z3.Const("a!f", _B), z3.Const("b!f", _R), z3.Int("n!f")
    return [z3.ForAll([a, b, n], z3.Implies(n <= 0, SUMNN(a, b, n) == 0), patterns=[SUMNN(a, b, n)]),
            z3.ForAll([a, b, n], z3.Implies(n > 0, SUMNN(a, b, n) == SUMNN(a, b, n - 1) +
                                            z3.If(z3.Select(a, n - 1), z3.RealVal(0), z3.Select(b, n - 1))),
                      patterns=[SUMNN(a, b, n)])]


def ax_countnn():
    a, n = z3.Const("a!f", _B), z3.Int("n!f")
    return [z3.ForAll([a, n], z3.Implies(n <= 0, COUNTNN(a, n) == 0), patterns=[COUNTNN(a, n)]),
            z3.ForAll([a, n], z3.Implies(n > 0, COUNTNN(a, n) == COUNTNN(a, n - 1) +
                                         z3.If(z3.Select(a, n - 1), 0, 1)), patterns=[COUNTNN(a, n)]),
            z3.ForAll([a, n], z3.Implies(n >= 0, z3.And(COUNTNN(a, n) >= 0, COUNTNN(a, n) <= n)), patterns=[COUNTNN(a, n)])]


_install0 = install


def install(reg):  # noqa: F811
    _install0(reg)
    reg.specfuncs.update(sumnn=sf_sumnn, countnn=sf_countnn)
    reg.axioms.append(("sumnn", ax_sumnn))
    reg.axioms.append(("countnn", ax_countnn))
    reg.auto_inline |= {"tracklib.core.utils:listify", "tracklib.core.utils:isnan"}


# ---------------------------------------------------------------- library of valid non-linear facts
# Each schema is a theorem of real arithmetic.  `use <schema>(args)` in a hint list adds the instance
# as a hypothesis without a per-instance proof; the schema itself is proved once per run (obligation
# lib/<name>, see LIB_SCHEMAS), so nothing here is an unproved assumption.
def _r(v):
    return to_float(v)[1]


def lib_mul_nonneg(ex, st, a, b):
    a, b = _r(a), _r(b)
    return vbool(z3.And(z3.Implies(z3.And(a >= 0, b >= 0), a * b >= 0), z3.Implies(z3.And(a <= 0, b >= 0), a * b <= 0),
                        z3.Implies(z3.And(a > 0, b > 0), a * b > 0), z3.Implies(z3.And(a < 0, b > 0), a * b < 0)))


def lib_mul_mono(ex, st, a, b, c):
    a, b, c = _r(a), _r(b), _r(c)
    return vbool(z3.And(z3.Implies(z3.And(a <= b, c >= 0), a * c <= b * c), z3.Implies(z3.And(a < b, c > 0), a * c < b * c)))


def lib_sq_nonneg(ex, st, a):
    a = _r(a)
    return vbool(a * a >= 0)


def lib_distrib(ex, st, a, b, c):
    a, b, c = _r(a), _r(b), _r(c)
    return vbool(z3.And((a - b) * c == a * c - b * c, (a + b) * c == a * c + b * c))


def lib_div_cancel(ex, st, A, L, D, U):
    """L != 0 and A*L == D*U  ==>  A == (D/L)*U"""
    A, L, D, U = _r(A), _r(L), _r(D), _r(U)
    return vbool(z3.Implies(z3.And(L != 0, A * L == D * U), A == (D / L) * U))


def lib_div_sign(ex, st, D, L):
    D, L = _r(D), _r(L)
    return vbool(z3.Implies(L > 0, z3.And((D / L < 0) == (D < 0), (D / L > 1) == (D > L), (D / L >= 0) == (D >= 0),
                                           (D / L <= 1) == (D <= L))))


def lib_sq_mono(ex, st, p, r):
    p, r = _r(p), _r(r)
    return vbool(z3.Implies(z3.And(p >= 0, r >= 0), z3.And((p <= r) == (p * p <= r * r), (p < r) == (p * p < r * r))))


def lib_mul_cancel(ex, st, n, A, B):
    n, A, B = _r(n), _r(A), _r(B)
    return vbool(z3.Implies(z3.And(n != 0, A * n == n * B), A == B))


def lib_sq_eq(ex, st, p, r):
    p, r = _r(p), _r(r)
    return vbool(z3.Implies(p == r, p * p == r * r))


def lib_sq_prod(ex, st, p, r):
    p, r = _r(p), _r(r)
    return vbool((p * r) * (p * r) == (p * p) * (r * r))


def lib_div_bounds(ex, st, lo, hi, q, n):
    """n > 0 and lo*n <= q*n <= hi*n  ==>  lo <= q <= hi"""
    lo, hi, q, n = _r(lo), _r(hi), _r(q), _r(n)
    return vbool(z3.Implies(z3.And(n > 0, lo * n <= q * n, q * n <= hi * n), z3.And(lo <= q, q <= hi)))


def lib_mul_eq(ex, st, a, b, c):
    """a == b  ==>  a*c == b*c  (multiplying an equation by a term, which the arithmetic solver will not do unprompted)"""
    a, b, c = _r(a), _r(b), _r(c)
    return vbool(z3.Implies(a == b, a * c == b * c))


def sf_sqrt(ex, st, x):
    from . import mathlib
    ex.ctx.math_used.add("sqrt")
    return vfloat(mathlib.SQRT(_r(x)))


def lib_schemas():
    a, b, c, d = z3.Reals("a!l b!l c!l d!l")
    mk = lambda f, *xs: truth(f(None, None, *[vfloat(x) for x in xs]))
    return [("mul_nonneg", [], z3.ForAll([a, b], mk(lib_mul_nonneg, a, b))),
            ("mul_mono", [], z3.ForAll([a, b, c], mk(lib_mul_mono, a, b, c))),
            ("sq_nonneg", [], z3.ForAll([a], mk(lib_sq_nonneg, a))),
            ("distrib", [], z3.ForAll([a, b, c], mk(lib_distrib, a, b, c))),
            ("div_cancel", [], z3.ForAll([a, b, c, d], mk(lib_div_cancel, a, b, c, d))),
            ("div_sign", [], z3.ForAll([a, b], mk(lib_div_sign, a, b))),
            ("sq_mono", [], z3.ForAll([a, b], mk(lib_sq_mono, a, b))),
            ("mul_cancel", [], z3.ForAll([a, b, c], mk(lib_mul_cancel, a, b, c))),
            ("sq_eq", [], z3.ForAll([a, b], mk(lib_sq_eq, a, b))),
            ("sq_prod", [], z3.ForAll([a, b], mk(lib_sq_prod, a, b))),
            ("div_bounds", [], z3.ForAll([a, b, c, d], mk(lib_div_bounds, a, b, c, d))),
            ("mul_eq", [], z3.ForAll([a, b, c], mk(lib_mul_eq, a, b, c)))]


_install1 = install


def install(reg):  # noqa: F811
    _install1(reg)
    reg.specfuncs.update(mul_nonneg=lib_mul_nonneg, mul_mono=lib_mul_mono, sq_nonneg=lib_sq_nonneg, distrib=lib_distrib,
                         div_cancel=lib_div_cancel, div_sign=lib_div_sign, sq_mono=lib_sq_mono, mul_cancel=lib_mul_cancel,
                         sq_eq=lib_sq_eq, sq_prod=lib_sq_prod, sqrt=sf_sqrt, div_bounds=lib_div_bounds, mul_eq=lib_mul_eq)
