"""Spec functions available to every contract."""
import z3
from .kinds import *
from .values import *


def sf_isnew(ex, st, r):
    """r was allocated during the call (>= allocation counter at entry, < counter now)."""
    a0 = ex.old_state.vars["$alloc"].terms[0]
    a1 = st.vars["$alloc"].terms[0]
    return vbool(and_(r.terms[0] >= a0, r.terms[0] < a1))


def sf_isold(ex, st, r):
    return vbool(r.terms[0] < st.vars["$alloc"].terms[0])


def sf_isnan(ex, st, x):
    if isinstance(x.kind, (KFloat,)):
        return vbool(x.terms[0])
    return vbool(FALSE)


def sf_at_entry(ex, st, *a):
    raise OutOfSubset("at_entry is a special form")


def install(reg):
    reg.specfuncs.update(isnew=sf_isnew, isold=sf_isold, isnan=sf_isnan)
