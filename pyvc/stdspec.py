"""Spec functions available to every contract."""
import z3
from .kinds import *
from .values import *


def sf_isnew(ex, st, r):
    """r was allocated during the call (>= allocation counter at entry, < counter now)."""
    a0 = ex.old_state.vars["$alloc"].terms[0]
    a1 = st.vars["$alloc"].terms[0]
    return vbool(and_(r.terms[0] >= a0, r.terms[0] < a1))


def sf_isold(ex, st, r):
    return vbool(r.terms[0] < st.vars["$alloc"].terms[0])


def sf_isnan(ex, st, x):
    if isinstance(x.kind, (KFloat,)):
        return vbool(x.terms[0])
    return vbool(FALSE)


def sf_at_entry(ex, st, *a):
    raise OutOfSubset("at_entry is a special form")


def install(reg):
    reg.specfuncs.update(isnew=sf_isnew, isold=sf_isold, isnan=sf_isnan)


# ---------------------------------------------------------------- folds over float lists
_B = z3.ArraySort(z3.IntSort(), z3.BoolSort())
_R = z3.ArraySort(z3.IntSort(), z3.RealSort())
SUMNN = z3.Function("sumnn", _B, _R, z3.IntSort(), z3.RealSort())      # sum of the non-NaN among the first n
COUNTNN = z3.Function("countnn", _B, z3.IntSort(), z3.IntSort())       # number of non-NaN among the first n


def _float_list(l):
    if not isinstance(l.kind, KList):
        raise OutOfSubset("fold over %r" % (l.kind,))
    if isinstance(l.kind.elem, KFloat):
        return l.terms[1], l.terms[2]
    if isinstance(l.kind.elem, KReal):
        return z3.K(z3.IntSort(), FALSE), l.terms[1]
    raise OutOfSubset("fold over list of %r" % (l.kind.elem,))


def sf_sumnn(ex, st, l, n):
    a, b = _float_list(l)
    return vfloat(SUMNN(a, b, to_int(n)))


def sf_countnn(ex, st, l, n):
    a, b = _float_list(l)
    return vint(COUNTNN(a, to_int(n)))


def ax_sumnn():
    a, b, n = z3.Const("a!f", _B), z3.Const("b!f", _R), z3.Int("n!f")
    return [z3.ForAll([a, b, n], z3.Implies(n <= 0, SUMNN(a, b, n) == 0), patterns=[SUMNN(a, b, n)]),
            z3.ForAll([a, b, n], z3.Implies(n > 0, SUMNN(a, b, n) == SUMNN(a, b, n - 1) +
                                            z3.If(z3.Select(a, n - 1), z3.RealVal(0), z3.Select(b, n - 1))),
                      patterns=[SUMNN(a, b, n)])]


def ax_countnn():
    a, n = z3.Const("a!f", _B), z3.Int("n!f")
    return [z3.ForAll([a, n], z3.Implies(n <= 0, COUNTNN(a, n) == 0), patterns=[COUNTNN(a, n)]),
            z3.ForAll([a, n], z3.Implies(n > 0, COUNTNN(a, n) == COUNTNN(a, n - 1) +
                                         z3.If(z3.Select(a, n - 1), 0, 1)), patterns=[COUNTNN(a, n)]),
            z3.ForAll([a, n], z3.Implies(n >= 0, z3.And(COUNTNN(a, n) >= 0, COUNTNN(a, n) <= n)), patterns=[COUNTNN(a, n)])]


_install0 = install


def install(reg):  # noqa: F811
    _install0(reg)
    reg.specfuncs.update(sumnn=sf_sumnn, countnn=sf_countnn)
    reg.axioms.append(("sumnn", ax_sumnn))
    reg.axioms.append(("countnn", ax_countnn))
    reg.auto_inline |= {"tracklib.core.utils:listify", "tracklib.core.utils:isnan"}
